'''Native bounded stand-in for C15 (labelled bounded): sequences of wrapper / factory requests and job task lists.'''
import itertools


def _fresh_use():
    from valjean.cosette import use
    use.Use._CACHE.clear()
    return use


def _mk_base_tasks():
    from valjean.cosette.task import Task, TaskStatus

    class Const(Task):
        def __init__(self, name, payload):
            super().__init__(name)
            self.payload = payload

        def do(self, env, config):
            return {self.name: dict(self.payload)}, TaskStatus.DONE
    return [Const('t1', {'result': 'r1', 'a': 'a1'}), Const('t2', {'result': 'r2', 'a': 'a2'})]


def use_requests():
    '''(label, builder) pairs; builder(tasks) -> Use object.  Requests differ in function, injected task, key, hard/soft, positional/keyword'''
    from valjean.cosette.use import Use

    def f_first(*a, **kw):
        return ('first', a, tuple(sorted(kw.items())))

    def g(*a, **kw):
        return ('g', a, tuple(sorted(kw.items())))

    def make_same_name():
        def f_first(*a, **kw):      # noqa: same __name__, different function
            return ('second', a, tuple(sorted(kw.items())))
        return f_first
    f_second = make_same_name()
    lam1 = lambda *a, **kw: ('lam1', a, tuple(sorted(kw.items())))     # noqa
    lam2 = lambda *a, **kw: ('lam2', a, tuple(sorted(kw.items())))     # noqa
    funcs = {'f': f_first, 'f_same_name': f_second, 'g': g, 'lam1': lam1, 'lam2': lam2}
    reqs = []
    for fname, func in funcs.items():
        for ti in (0, 1):
            for key in ('result', 'a'):
                for dt in ('hard', 'soft'):
                    for kwarg in (None, 'x'):
                        label = f'{fname}|t{ti + 1}|{key}|{dt}|{"kw" if kwarg else "pos"}'
                        reqs.append((label, (lambda tasks, func=func, ti=ti, key=key, dt=dt, kwarg=kwarg:
                                             Use.from_func(func=func, task=tasks[ti], key=key, kwarg=kwarg, deps_type=dt)),
                                     (fname, ti, key, dt, kwarg)))
    return reqs


def _run_task(task, base_tasks):
    '''execute the generated task against an environment holding the results of the base tasks'''
    from valjean.cosette.env import Env
    from valjean.config import Config
    env = Env()
    for t in base_tasks:
        up, _ = t.do(env, None)
        env.apply(up)
    out = task.do(env=env, config=Config())
    up, st = out
    return list(up.values())[0]['result']


def _expected(spec, base_tasks):
    fname, ti, key, dt, kwarg = spec
    val = {'result': f'r{ti + 1}', 'a': f'a{ti + 1}'}[key]
    tag = {'f': 'first', 'f_same_name': 'second', 'g': 'g', 'lam1': 'lam1', 'lam2': 'lam2'}[fname]
    return (tag, (), (('x', val),)) if kwarg else (tag, (val,), ())


def sweep_use(tier, seed):
    import random
    rng = random.Random(seed)
    fails, n = [], 0
    reqs = use_requests()
    pairs = list(itertools.permutations(range(len(reqs)), 2)) + [(i, i) for i in range(len(reqs))]
    if tier == 'quick':
        keep = [p for p in pairs if p[0] == p[1]]
        rest = [p for p in pairs if p[0] != p[1]]
        rng.shuffle(rest)
        pairs = keep + rest[:1500]
    for i, j in pairs:
        n += 1
        _fresh_use()
        base = _mk_base_tasks()
        (l1, b1, s1), (l2, b2, s2) = reqs[i], reqs[j]
        try:
            t1 = b1(base).get_task()
        except Exception as e:      # noqa
            fails.append({'input': {'requests': [l1]}, 'observed': f'first request raised {e!r}', 'expected': 'a task'})
            continue
        try:
            t2 = b2(base).get_task()
            err = None
        except Exception as e:      # noqa
            t2, err = None, e
        inp = {'requests': [l1, l2]}
        if i == j:
            if err is not None or t2 is not t1:
                fails.append({'input': inp, 'observed': f'identical requests gave {"an error " + repr(err) if err else "two different tasks"}', 'expected': 'the same task'})
            continue
        if err is not None:
            if not isinstance(err, (ValueError, KeyError, TypeError, RuntimeError)):
                fails.append({'input': inp, 'observed': f'raised {err!r}', 'expected': 'distinct tasks or an explicit error'})
            continue
        if t2 is t1:
            fails.append({'input': inp, 'observed': f'two different requests silently share the task {t1.name!r}', 'expected': 'distinct tasks or an explicit error'})
            continue
        # each task does what its own request asked for
        for t, spec, lab in ((t1, s1, l1), (t2, s2, l2)):
            try:
                got = _run_task(t, base)
            except Exception as e:      # noqa
                fails.append({'input': inp, 'observed': f'task of request {lab} raised {e!r}', 'expected': 'runs its function on its injected result'})
                break
            if got != _expected(spec, base):
                fails.append({'input': inp, 'observed': f'task of request {lab} returned {got}', 'expected': repr(_expected(spec, base))})
                break
            dt = spec[3]
            deps = {d.name for d in (t.depends_on if dt == 'hard' else t.soft_depends_on)}
            other = {d.name for d in (t.soft_depends_on if dt == 'hard' else t.depends_on)}
            if deps != {f't{spec[1] + 1}'} or other:
                fails.append({'input': inp, 'observed': f'task of request {lab} depends on hard={[d.name for d in t.depends_on]} soft={[d.name for d in t.soft_depends_on]}',
                              'expected': f'{dt} dependency on t{spec[1] + 1} only'})
                break
        if len(fails) >= 8:
            break
    # one base wrapper specialised several times: each derived wrapper injects its own task only, the base is left alone
    from valjean.cosette.use import Use
    for kw in (None, 'extra'):
        n += 1
        _fresh_use()
        base = _mk_base_tasks()

        def fn(*a, **k):
            return ('fn', a, tuple(sorted(k.items())))
        root = Use.from_func(func=fn, task=base[0], key='result')
        d1 = Use.from_func(func=root, task=base[1], key='a', kwarg=kw)
        d2 = Use.from_func(func=root, task=base[1], key='result', kwarg=kw)
        inj = lambda u: ([(t.name, k) for t, k in u.inj_args], {k2: (t.name, k) for k2, (t, k) in u.inj_kwargs.items()})     # noqa
        probs = []
        if inj(root) != ([('t1', 'result')], {}):
            probs.append(f'decorating a wrapper modified it: {inj(root)}')
        w1 = ([('t1', 'result'), ('t2', 'a')], {}) if kw is None else ([('t1', 'result')], {'extra': ('t2', 'a')})
        w2 = ([('t1', 'result'), ('t2', 'result')], {}) if kw is None else ([('t1', 'result')], {'extra': ('t2', 'result')})
        if inj(d1) != w1 or inj(d2) != w2:
            probs.append(f'derived wrappers inject {inj(d1)} and {inj(d2)}, expected {w1} and {w2}')
        if probs:
            fails.append({'input': {'shared_base_wrapper': True, 'kwarg': kw}, 'observed': probs, 'expected': 'each wrapper injects what it was asked for'})
    # two injections on the same function: the ORDER of the positional ones and the keyword each task goes to are part of the request
    def ratio(*a, **k):
        return ('ratio', a, tuple(sorted(k.items())))
    chains = {
        'pos(t1), pos(t2)': lambda b: Use.from_func(func=Use.from_func(func=ratio, task=b[0], key='result'), task=b[1], key='result'),
        'pos(t2), pos(t1)': lambda b: Use.from_func(func=Use.from_func(func=ratio, task=b[1], key='result'), task=b[0], key='result'),
        'x=t1, y=t2': lambda b: Use.from_func(func=Use.from_func(func=ratio, task=b[0], key='result', kwarg='x'), task=b[1], key='result', kwarg='y'),
        'x=t2, y=t1': lambda b: Use.from_func(func=Use.from_func(func=ratio, task=b[1], key='result', kwarg='x'), task=b[0], key='result', kwarg='y'),
        'y=t2, x=t1': lambda b: Use.from_func(func=Use.from_func(func=ratio, task=b[1], key='result', kwarg='y'), task=b[0], key='result', kwarg='x'),
        'pos(t1), x=t2': lambda b: Use.from_func(func=Use.from_func(func=ratio, task=b[0], key='result'), task=b[1], key='result', kwarg='x'),
        'pos(t2), x=t1': lambda b: Use.from_func(func=Use.from_func(func=ratio, task=b[1], key='result'), task=b[0], key='result', kwarg='x'),
        # the SAME task injected twice under two different keys (stdout and stderr of one run): each argument gets the key it was asked for
        'x=t1.result, y=t1.a': lambda b: Use.from_func(func=Use.from_func(func=ratio, task=b[0], key='result', kwarg='x'), task=b[0], key='a', kwarg='y'),
        'x=t1.a, y=t1.result': lambda b: Use.from_func(func=Use.from_func(func=ratio, task=b[0], key='a', kwarg='x'), task=b[0], key='result', kwarg='y'),
        'pos(t1.a), x=t1.result': lambda b: Use.from_func(func=Use.from_func(func=ratio, task=b[0], key='a'), task=b[0], key='result', kwarg='x'),
        'pos(t1.result), pos(t1.a)': lambda b: Use.from_func(func=Use.from_func(func=ratio, task=b[0], key='result'), task=b[0], key='a'),
    }
    want = {'pos(t1), pos(t2)': ('ratio', ('r1', 'r2'), ()), 'pos(t2), pos(t1)': ('ratio', ('r2', 'r1'), ()),
            'x=t1, y=t2': ('ratio', (), (('x', 'r1'), ('y', 'r2'))), 'x=t2, y=t1': ('ratio', (), (('x', 'r2'), ('y', 'r1'))),
            'y=t2, x=t1': ('ratio', (), (('x', 'r1'), ('y', 'r2'))),
            'pos(t1), x=t2': ('ratio', ('r1',), (('x', 'r2'),)), 'pos(t2), x=t1': ('ratio', ('r2',), (('x', 'r1'),)),
            'x=t1.result, y=t1.a': ('ratio', (), (('x', 'r1'), ('y', 'a1'))), 'x=t1.a, y=t1.result': ('ratio', (), (('x', 'a1'), ('y', 'r1'))),
            'pos(t1.a), x=t1.result': ('ratio', ('a1',), (('x', 'r1'),)), 'pos(t1.result), pos(t1.a)': ('ratio', ('r1', 'a1'), ())}
    same_request = {frozenset(('x=t1, y=t2', 'y=t2, x=t1'))}      # keyword injections form a mapping: the order of decoration is not part of the request
    for la, lb in itertools.permutations(chains, 2):
        n += 1
        _fresh_use()
        base = _mk_base_tasks()
        inp = {'two_injections': [la, lb]}
        try:
            ta = chains[la](base).get_task()
        except Exception as e:      # noqa
            fails.append({'input': inp, 'observed': f'first request raised {e!r}', 'expected': 'a task'})
            continue
        try:
            tb, err = chains[lb](base).get_task(), None
        except Exception as e:      # noqa
            tb, err = None, e
        if err is not None:
            if not isinstance(err, (ValueError, KeyError, TypeError, RuntimeError)):
                fails.append({'input': inp, 'observed': f'raised {err!r}', 'expected': 'distinct tasks or an explicit error'})
            continue
        if frozenset((la, lb)) in same_request:
            continue
        if tb is ta:
            fails.append({'input': inp, 'observed': f'two different requests silently share the task {ta.name!r}', 'expected': 'distinct tasks or an explicit error'})
            continue
        # which positional injection comes first at call time is a convention the property does not fix: positional values are compared as a multiset,
        # but two requests that differ only by the order of their positional injections must not compute the same call
        gots = {}
        for t, lab in ((ta, la), (tb, lb)):
            try:
                got = _run_task(t, base)
            except Exception as e:      # noqa
                fails.append({'input': inp, 'observed': f'task of request {lab} raised {e!r}', 'expected': repr(want[lab])})
                break
            gots[lab] = got
            if (got[0], sorted(got[1]), got[2]) != (want[lab][0], sorted(want[lab][1]), want[lab][2]):
                fails.append({'input': inp, 'observed': f'task of request {lab} returned {got}', 'expected': repr(want[lab]) + ' (positional values in either order)'})
                break
        if len(gots) == 2 and {la, lb} == {'pos(t1), pos(t2)', 'pos(t2), pos(t1)'} and gots[la] == gots[lb]:
            fails.append({'input': inp, 'observed': f'both orders of the positional injections compute the same call {gots[la]}', 'expected': 'the order of injection is part of the request'})
    return {'name': 'use-requests-native', 'evaluations': n, 'distinct': n, 'failures': fails[:8], 'exhaustive': tier != 'quick',
            'bound': f'pairs of Use.from_func requests over 5 functions (two with the same __name__, two lambdas) x 2 injected tasks x keys {{result, a}} x '
                     f'hard/soft x positional/keyword ({len(reqs)} requests); every identical pair, {"1500 sampled" if tier == "quick" else "all"} different pairs; '
                     'the generated tasks are executed and compared with the request; 11 double injections (both positional orders, both keyword assignments, mixed, one task injected twice under two keys), all ordered pairs', 'samples': [{'requests': ['f|t1|result|hard|pos', 'f_same_name|t1|result|hard|pos']}]}


def factory_name_clashes():
    '''tasks generated WITHOUT a name by factories that differ in their executable, default arguments or default keywords: two tasks that run different command
    lines have different names (the name is their output directory and their entry in the environment)'''
    from valjean.cosette.run import RunTaskFactory
    from valjean.cosette.env import Env
    from valjean.config import Config
    makers = {
        "tool x{v}, v=0": lambda: RunTaskFactory.from_executable('/bin/tool', default_args=['x{v}'], v='0'),
        "tool x{v}, v=9": lambda: RunTaskFactory.from_executable('/bin/tool', default_args=['x{v}'], v='9'),
        "tool x{v} {w}, v=0, w=1": lambda: RunTaskFactory.from_executable('/bin/tool', default_args=['x{v}', '{w}'], v='0', w='1'),
        "tool x{v} {w}, v=0, w=2": lambda: RunTaskFactory.from_executable('/bin/tool', default_args=['x{v}', '{w}'], v='0', w='2'),
        "other x{v}, v=0": lambda: RunTaskFactory.from_executable('/bin/other', default_args=['x{v}'], v='0'),
    }
    probs, n = [], 0
    made = {}
    for lab, mk in makers.items():
        for call in ({}, {'v': '5'}):
            t = mk().make(**call)
            cli = t.func.keywords['clis_closure'](Env(), Config())
            made[(lab, tuple(sorted(call.items())))] = (t, cli)
    keys = list(made)
    for i, a in enumerate(keys):
        for b in keys[i + 1:]:
            n += 1
            (ta, ca), (tb, cb) = made[a], made[b]
            if ca != cb and ta.name == tb.name:
                probs.append(f'factory [{a[0]}] called with {dict(a[1])} and factory [{b[0]}] called with {dict(b[1])} run {ca} and {cb} under the same task name {ta.name!r}')
    return n, probs


def sweep_factory(tier, seed):
    from valjean.cosette.run import RunTaskFactory
    from valjean.cosette.env import Env
    from valjean.config import Config
    base = _mk_base_tasks()
    reqs = []
    for name in (None, 'named'):
        for extra in (['-a'], ['-b'], ['{v}'], ['{print $1}']):      # extra arguments are appended as they are, braces included
            for fmt in ({}, {'v': '1'}, {'v': '2'}):
                for deps in ([], [0], [1]):
                    for soft in ([], [1]):
                        for sp in ({}, {'timeout': 5}):
                            reqs.append((name, extra, fmt, deps, soft, sp))
    fails, n = [], 0
    import random
    rng = random.Random(seed)
    pairs = list(itertools.permutations(range(len(reqs)), 2)) + [(i, i) for i in range(len(reqs))]
    if tier == 'quick':
        keep = [p for p in pairs if p[0] == p[1]]
        rest = [p for p in pairs if p[0] != p[1]]
        rng.shuffle(rest)
        pairs = keep + rest[:1500]

    def make(fac, r):
        name, extra, fmt, deps, soft, sp = r
        return fac.make(name=name, extra_args=list(extra), deps=[base[i] for i in deps], soft_deps=[base[i] for i in soft], subprocess_args=dict(sp), **fmt)

    def describe(task):
        clis = task_clis(task)
        return clis, sorted(d.name for d in task.depends_on), sorted(d.name for d in task.soft_depends_on)

    def task_clis(task):
        # the command lines the task would run: call the closure stored in the runner partial
        fn = task.func
        return fn.keywords['clis_closure'](Env(), Config()), fn.keywords['subprocess_args']

    def wanted(r):
        name, extra, fmt, deps, soft, sp = r
        return ([['/bin/tool', 'x' + fmt.get('v', '0')] + list(extra)], dict(sp)), sorted(f't{i + 1}' for i in deps), sorted(f't{i + 1}' for i in soft)
    for i, j in pairs:
        n += 1
        fac = RunTaskFactory.from_executable('/bin/tool', name='fac', default_args=['x{v}'], v='0')
        r1, r2 = reqs[i], reqs[j]
        inp = {'requests': [repr(r1), repr(r2)]}
        try:
            t1 = make(fac, r1)
            t2 = make(fac, r2)
            err = None
        except Exception as e:      # noqa
            err = e
        if err is not None:
            if i == j or not isinstance(err, (ValueError, KeyError, TypeError, RuntimeError)):
                fails.append({'input': inp, 'observed': f'raised {err!r}', 'expected': 'tasks (or an explicit error for a name clash)'})
            continue
        if i == j:
            if t1 is not t2:
                fails.append({'input': inp, 'observed': 'identical requests gave two tasks', 'expected': 'the same task'})
            continue
        if t1 is t2:
            fails.append({'input': inp, 'observed': f'two different requests silently share the task {t1.name!r}', 'expected': 'distinct tasks or an explicit error'})
            continue
        for t, r in ((t1, r1), (t2, r2)):
            try:
                desc = describe(t)
            except Exception as e:      # noqa
                fails.append({'input': inp, 'observed': f'building the command line of task {t.name!r} raised {e!r}', 'expected': repr(wanted(r))})
                break
            if desc != wanted(r):
                fails.append({'input': inp, 'observed': f'task {t.name!r} runs {describe(t)}', 'expected': repr(wanted(r))})
                break
        if len(fails) >= 8:
            break
    n2, clashes = factory_name_clashes()
    n += n2
    if clashes:
        fails.append({'input': {'unnamed_tasks_of_several_factories': True}, 'observed': clashes[:3], 'expected': 'different command lines, different task names'})
    return {'name': 'factory-requests-native', 'evaluations': n, 'distinct': n, 'failures': fails[:8], 'exhaustive': tier != 'quick',
            'bound': f'pairs of RunTaskFactory.make requests: name in {{None, named}} x 4 extra-argument lists (two with braces) x 3 format kwargs x 3 dependency lists x 2 soft-dependency '
                     f'lists x 2 subprocess-argument dicts ({len(reqs)} requests); every identical pair, {"1500 sampled" if tier == "quick" else "all"} different pairs; unnamed tasks of 5 factories differing in executable / default arguments / default keywords',
            'samples': [{'requests': ["(None, ['-a'], {}, [], [], {})", "(None, ['-a'], {}, [0], [], {})"]}]}




def collect_cases(tier, seed):
    from valjean.cosette.task import Task, TaskStatus
    import valjean.cambronne.common as common

    class T(Task):
        def do(self, env, config):
            return {}, TaskStatus.DONE
    fails, n = [], 0
    names = ['a', 'b', 'c', 'd']
    pairs = [(i, j) for j in range(4) for i in range(j)]
    for mask in range(3 ** len(pairs)):
        kinds, m = {}, mask
        for p in pairs:
            kinds[p] = (None, 'h', 's')[m % 3]
            m //= 3
        if tier == 'quick' and mask % 7:
            continue
        n += 1
        tasks = []
        for j in range(4):
            tasks.append(T(names[j], deps=[tasks[i] for i in range(j) if kinds[(i, j)] == 'h'], soft_deps=[tasks[i] for i in range(j) if kinds[(i, j)] == 's']))
        for start in ([3], [2, 3], [3, 3]):
            job = [tasks[k] for k in start]
            try:
                got = common.close_dependency_graph(job)
            except Exception as e:      # noqa
                fails.append({'input': {'edges': {f'{i}->{j}': k for (i, j), k in kinds.items() if k}, 'job': start}, 'observed': f'raised {e!r}', 'expected': 'the closure'})
                continue
            want = set()
            stack = list(set(start))
            while stack:
                k = stack.pop()
                if k in want:
                    continue
                want.add(k)
                stack.extend(i for i in range(k) if kinds[(i, k)])
            gl = list(got)
            if sorted(t.name for t in gl) != sorted(names[k] for k in want) or len(gl) != len({id(t) for t in gl}):
                fails.append({'input': {'edges': {f'{i}->{j}': k for (i, j), k in kinds.items() if k}, 'job': start},
                              'observed': f'collected {[t.name for t in gl]}', 'expected': f'each of {sorted(names[k] for k in want)} exactly once'})
        if len(fails) >= 6:
            break
    # collect_tasks: a name clash among TRANSITIVE dependencies is rejected, too
    import tempfile
    import os
    for depth in (0, 1):
        n += 1
        d = tempfile.mkdtemp(prefix='c15job_', dir='/var/tmp')
        jf = os.path.join(d, 'job.py')
        with open(jf, 'w') as f:
            f.write('from valjean.cosette.task import Task, TaskStatus\n'
                    'class T(Task):\n    def do(self, env, config):\n        return {}, TaskStatus.DONE\n'
                    'def job():\n    a1, a2 = T("same"), T("same")\n'
                    + ('    return [a1, a2]\n' if depth == 0 else '    return [T("top1", deps=[a1]), T("top2", soft_deps=[a2])]\n'))
        try:
            common.collect_tasks(jf, [], {})
            fails.append({'input': {'duplicate_names_at_depth': depth}, 'observed': 'collect_tasks accepted two different tasks with one name', 'expected': 'ValueError'})
        except ValueError:
            pass
        except Exception as e:      # noqa
            fails.append({'input': {'duplicate_names_at_depth': depth}, 'observed': f'raised {e!r}', 'expected': 'ValueError'})
        finally:
            import shutil
            shutil.rmtree(d, ignore_errors=True)
    # name clashes
    for dup in (True, False):
        n += 1
        a1, a2 = T('same' if dup else 'one'), T('same' if dup else 'two')
        b = T('b', deps=[a1], soft_deps=[a2])
        try:
            common.check_unique_task_names(common.close_dependency_graph([b]))
            raised = False
        except ValueError:
            raised = True
        except Exception as e:      # noqa
            fails.append({'input': {'duplicate_names': dup}, 'observed': f'raised {e!r}', 'expected': 'ValueError' if dup else 'accepted'})
            continue
        if raised != dup:
            fails.append({'input': {'duplicate_names': dup}, 'observed': 'rejected' if raised else 'accepted two different tasks with one name', 'expected': 'ValueError iff two different tasks share a name'})
    return {'name': 'collect-job-tasks-native', 'evaluations': n, 'distinct': n, 'failures': fails[:8], 'exhaustive': tier != 'quick',
            'bound': 'all hard/soft DAGs over 4 tasks (every 7th in the quick tier), job lists [d], [c, d], [d, d]; close_dependency_graph + check_unique_task_names',
            'samples': [{'edges': {'0->3': 'h', '1->3': 's'}, 'job': [3]}]}
