'''C16 -- the dependency graph mirrors a plain node/edge set under any edit history.

Deductive part: the edit operations of DepGraph (valjean/cosette/depgraph.py) against the abstract view
    V(g) = { seq[i] }            E(g) = { (seq[i], seq[j]) | j in edges[i] }
with the representation invariant GI (positions 0..n-1 are exactly the keys of _edges, every target is a position,
nodes are pairwise distinct).  RList is used through its contract (class model below, an ASSUMED contract exercised by
the exhaustive bounded unit rlist_histories).  Induction over the edit history is the soundness theorem of the method.

Bounded part (the property's own bound): topological_sort / transitive_reduction / transitive_closure on all graphs
<= 4 (thorough: 5) nodes, flatten on nested graphs, all edit histories of length <= 3 (thorough: 4).'''
import ast
import z3

from pyvc import prop, theory as th
from pyvc.values import SV, SObj, SClass, SNamespace, SFunc, T, INT, BOOL, Undecided, lift, coerce, zsort, seq_len, seq_arr, seq_mk, opt_is_none, parse_type
from pyvc.engine import Contract, LoopSpec
from pyvc.verify import World, ClassModel, verify_function
from . import depgraph_native as dn

ID = 'C16'
LEVEL = 'proof'
DG = 'valjean/cosette/depgraph.py'
NODE = T('Ref', 'Node')
SEQ = T('Seq', NODE)
EDGES = 'Map[Int,Set[Int]]'

EXPLANATION = ('Edit operations of DepGraph (add_node, add_dependency, remove_dependency, remove_node with its swap-with-last relabelling, '
               'dependencies, dependees, copy, invert, __contains__, __len__) carry contracts against the abstract node/edge view and the '
               'representation invariant; obligations are generated from the real AST (foreach loop invariants for the two relabelling loops) and '
               'discharged by z3. RList is an assumed contract, conformance-checked exhaustively on all edit histories of length <= 3/4. '
               'The graph algorithms (recursive closures, reachability is not first-order) and flatten are bounded-exhaustive, as the property itself bounds them.')
ASSUMPTIONS = [
    'A-rlist: RList behaves as the abstract sequence of contracts/C16.py::RListModel (get_index/index return a position of the value, swap, '
    '__delitem__, append, copy, membership); checked only by the exhaustive bounded unit rlist_histories, not proved from rlist.py',
    'nodes are compared by identity (RList key=id), so the abstract node sort is an uninterpreted sort with equality',
    'induction over the edit history (GI established by __init__, preserved by every public operation) is the meta-theorem of the method',
    'A-log: LOGGER calls and Chrono timers dropped',
    'topological_sort, transitive_reduction, transitive_closure, flatten/graft, merge, isomorphic_to, initial, terminal: NOT under a discharged contract; '
    'decided by the bounded-exhaustive units only',
]
TRUSTED = ['z3 unsat answers (cvc5 cross-check in the thorough tier)', 'CPython ast module', 'pyvc engine (symbolic executor, libspec encodings)']

SPEC_DEFS = '''
def GI(g):
    return (all((i in g._edges) == (0 <= i and i < len(g._nodes.seq)) for i in Ints)
            and all(all(0 <= j and j < len(g._nodes.seq) for j in g._edges[i]) for i in g._edges)
            and all(implies(g._nodes.seq[i] is g._nodes.seq[j], i == j) for i in range(len(g._nodes.seq)) for j in range(len(g._nodes.seq))))

def has_node(g, v):
    return any(g._nodes.seq[i] is v for i in range(len(g._nodes.seq)))

def has_edge(g, a, b):
    return any(g._nodes.seq[i] is a and g._nodes.seq[j] is b and j in g._edges[i]
               for i in range(len(g._nodes.seq)) for j in range(len(g._nodes.seq)))
'''


class RListModel(ClassModel):
    '''assumed contract of valjean.cosette.rlist.RList (identity keys)'''
    name = 'RList'
    fields = {'seq': 'Seq[Ref:Node]'}

    def _seq(self, I, r):
        return I.getfield(r, 'seq')

    def m___len__(self, I, r):
        return SV(INT, seq_len(self._seq(I, r)))

    def m___getitem__(self, I, r, i):
        return I.world.lib.getitem(I, self._seq(I, r), i)

    def m___contains__(self, I, r, v):
        return I.world.lib.contains(I, self._seq(I, r), v)

    def _find(self, I, r, v):
        s = self._seq(I, r)
        pos = I.fresh(INT, 'pos')
        n = seq_len(s)
        present = I.world.lib.contains(I, s, v).t
        I.path.assume(z3.Implies(present, z3.And(0 <= pos.t, pos.t < n, seq_arr(s)[pos.t] == v.t)))
        I.world.lib.use('RList.get_index/index: a position holding the value (assumed contract)')
        return present, pos

    def m_get_index(self, I, r, v, default):
        present, pos = self._find(I, r, v)
        if I.path.nofork:
            return I.merge(present, pos, default)
        if I.path.cond(present):
            return pos
        return default

    def m_index(self, I, r, v, start=0, stop=None):
        present, pos = self._find(I, r, v)
        I.require(present, 'ValueError', 'RList.index of a missing value')
        return pos

    def m_append(self, I, r, v):
        new, _ = I.world.lib.mutate(I, self._seq(I, r), 'append', [v])
        I.setfield(r, 'seq', new)
        return None

    def m_swap(self, I, r, i, j):
        s = self._seq(I, r)
        n = seq_len(s)
        i = i if isinstance(i, SV) else lift(i)
        j = j if isinstance(j, SV) else lift(j)
        I.require(z3.And(-n <= i.t, i.t < n, -n <= j.t, j.t < n), 'IndexError', 'RList.swap index')
        ii = z3.If(i.t < 0, i.t + n, i.t)
        jj = z3.If(j.t < 0, j.t + n, j.t)
        a = seq_arr(s)
        I.setfield(r, 'seq', seq_mk(s.typ, z3.Store(z3.Store(a, ii, a[jj]), jj, a[ii]), n))
        return None

    def m___delitem__(self, I, r, i):
        s = self._seq(I, r)
        holder = {'s': s}
        # reuse the sequence deletion of the library on a scratch variable
        n = seq_len(s)
        i = i if isinstance(i, SV) else lift(i)
        I.require(z3.And(-n <= i.t, i.t < n), 'IndexError', 'RList.__delitem__ index')
        j = z3.If(i.t < 0, i.t + n, i.t)
        out = I.fresh(s.typ, 'deleted')
        q = z3.Int('q!rdel')
        I.path.assume(seq_len(out) == n - 1)
        I.path.assume(z3.ForAll([q], z3.Implies(z3.And(0 <= q, q < n - 1), seq_arr(out)[q] == z3.If(q < j, seq_arr(s)[q], seq_arr(s)[q + 1]))))
        I.setfield(r, 'seq', out)
        return None

    def m_copy(self, I, r):
        return I.alloc('RList', {'seq': self._seq(I, r)})

    def iter_value(self, I, r):
        return self._seq(I, r)


class GraphModel(ClassModel):
    name = 'DepGraph'
    fields = {'_nodes': 'Obj:RList', '_edges': EDGES}

    def m___len__(self, I, g):
        return I.call_method(I.getfield(g, '_nodes'), '__len__', [], {})


def make_world():
    w = World()
    w.globals['LOGGER'] = SNamespace('LOGGER', dropped=True)
    w.class_models['RList'] = RListModel(w)
    w.class_models['DepGraph'] = GraphModel(w)
    w.globals['DepGraph'] = SClass('DepGraph')
    w.globals['RList'] = SClass('RList')
    w.globals['Ints'] = SV(T('Set', INT), z3.K(z3.IntSort(), z3.BoolVal(True)))
    w.globals['Nodes'] = SV(T('Set', NODE), z3.K(zsort(NODE), z3.BoolVal(True)))
    for node in ast.parse(SPEC_DEFS).body:
        w.globals[node.name] = SFunc(node, None, node.name)
    return w


VIEW_SAME_NODES = 'all(has_node(self, v) == old(has_node(self, v)) for v in Nodes)'
VIEW_SAME_EDGES = 'all(has_edge(self, a, b) == old(has_edge(self, a, b)) for a in Nodes for b in Nodes)'
REP_SAME = 'same(self._nodes.seq, old(self._nodes.seq)) and same(self._edges, old(self._edges))'


def c_contains():
    return Contract(DG, 'DepGraph.__contains__', params={'self': 'Obj:DepGraph', 'node': 'Ref:Node'}, returns='Bool',
                    requires=['GI(self)'], ensures=[('is-membership', 'result == has_node(self, node)'), ('pure', REP_SAME)], signals={})


def c_add_node():
    return Contract(
        DG, 'DepGraph.add_node', params={'self': 'Obj:DepGraph', 'node': 'Ref:Node'}, returns='=self',
        requires=['GI(self)'], modifies=['self._nodes', 'self._edges'],
        ensures=[('GI', 'GI(self)'), ('returns-self', 'result is self'),
                 ('nodes', 'all(has_node(self, v) == (old(has_node(self, v)) or v is node) for v in Nodes)'),
                 ('edges', VIEW_SAME_EDGES),
                 ('positions-kept', 'len(self._nodes.seq) >= len(old(self._nodes.seq)) and '
                                    'all(self._nodes.seq[i] is old(self._nodes.seq)[i] for i in range(len(old(self._nodes.seq))))'),
                 ('old-edge-sets-kept', 'all(same(self._edges[i], old(self._edges)[i]) for i in range(len(old(self._nodes.seq))))'),
                 ('new-node-has-no-edge', 'implies(not old(has_node(self, node)), len(self._nodes.seq) == len(old(self._nodes.seq)) + 1 and '
                                          'self._nodes.seq[len(old(self._nodes.seq))] is node and '
                                          'not any(True for j in self._edges[len(old(self._nodes.seq))]))'),
                 ('present-node-changes-nothing', 'implies(old(has_node(self, node)), ' + REP_SAME + ')')],
        signals={})


def c_add_dependency():
    return Contract(
        DG, 'DepGraph.add_dependency', params={'self': 'Obj:DepGraph', 'node': 'Ref:Node', 'on': 'Ref:Node'},
        requires=['GI(self)'],
        ensures=[('GI', 'GI(self)'), ('returns-self', 'result is self'),
                 ('nodes', 'all(has_node(self, v) == (old(has_node(self, v)) or v is node or v is on) for v in Nodes)'),
                 ('edges', 'all(has_edge(self, a, b) == (old(has_edge(self, a, b)) or (a is node and b is on)) for a in Nodes for b in Nodes)')],
        signals={})


def c_remove_dependency():
    return Contract(
        DG, 'DepGraph.remove_dependency', params={'self': 'Obj:DepGraph', 'node': 'Ref:Node', 'on': 'Ref:Node'},
        requires=['GI(self)'],
        ensures=[('GI', 'GI(self)'), ('returns-self', 'result is self'), ('nodes', VIEW_SAME_NODES),
                 ('edges', 'all(has_edge(self, a, b) == (old(has_edge(self, a, b)) and not (a is node and b is on)) for a in Nodes for b in Nodes)'),
                 ('edge-was-there', 'old(has_edge(self, node, on))')],
        signals={'ValueError': 'not has_node(self, node) or not has_node(self, on)',
                 'KeyError': 'has_node(self, node) and has_node(self, on) and not has_edge(self, node, on)'},
        signals_post={'*': [REP_SAME]})


def SW(x):
    return f'(last if {x} == i else (i if {x} == last else {x}))'


def c_remove_node():
    # loop 0: relabelling of the targets (swap i <-> last; the swap is an involution, so y is a new target of k iff sw(y) was one);
    # loop 1: removal of the edges into `last`
    inv0 = ['all((k in self._edges) == (k in edges0) for k in Ints)',
            'all(implies(k in done, all((y in self._edges[k]) == (' + SW('y') + ' in edges0[k]) for y in Ints)) for k in Ints)',
            'all(implies(k in edges0 and k not in done, same(self._edges[k], edges0[k])) for k in Ints)',
            'same(self._nodes.seq, seq0)']
    inv1 = ['all((k in self._edges) == (k in edges1) for k in Ints)',
            'all(implies(k in done, all((y in self._edges[k]) == (y in edges1[k] and y != last) for y in Ints)) for k in Ints)',
            'all(implies(k in edges1 and k not in done, same(self._edges[k], edges1[k])) for k in Ints)',
            'same(self._nodes.seq, seq0)']
    n0 = 'len(old(self._nodes.seq))'
    lemmas = [
        ('position-of-the-node', f'0 <= i and i <= last and last == {n0} - 1 and old(self._nodes.seq)[i] is node'),
        ('new-length', f'last == {n0} - 1 and len(self._nodes.seq) == {n0} - 1'),
        ('new-sequence-is-the-old-one-with-last-moved-to-i',
         'all(implies(0 <= p and p < len(self._nodes.seq), self._nodes.seq[p] is old(self._nodes.seq)[' + SW('p') + ']) for p in Ints)'),
        ('new-edge-sets-are-the-relabelled-old-ones',
         'all(implies(0 <= k and k < len(self._nodes.seq), all((y in self._edges[k]) == (y != last and ' + SW('y') + ' in old(self._edges)[' + SW('k') + ']) '
         'for y in Ints)) for k in Ints)'),
        # explicit witnesses for the existential view (old position q survives at position sw(q))
        ('old-positions-survive', f'all(implies(0 <= q and q < {n0} and q != i, 0 <= ' + SW('q') + ' and ' + SW('q') + ' < len(self._nodes.seq) and '
                                  'self._nodes.seq[' + SW('q') + '] is old(self._nodes.seq)[q]) for q in Ints)'),
    ]
    return Contract(
        DG, 'DepGraph.remove_node', params={'self': 'Obj:DepGraph', 'node': 'Ref:Node'}, returns='=self',
        requires=['GI(self)'],
        lemmas=lemmas,
        ensures=[('GI', 'GI(self)'), ('returns-self', 'result is self'),
                 ('nodes', 'all(has_node(self, v) == (old(has_node(self, v)) and v is not node) for v in Nodes)'),
                 ('edges', 'all(has_edge(self, a, b) == (old(has_edge(self, a, b)) and a is not node and b is not node) for a in Nodes for b in Nodes)')],
        signals={},
        loops={0: LoopSpec('for (k, vals) in self._edges.items()', inv0, vars={'self._edges': EDGES}),
               1: LoopSpec('for (k, vals) in self._edges.items()', inv1, vars={'self._edges': EDGES})})


def remove_node_hooks():
    '''ghost snapshots used by the loop invariants: the edge map at the head of each relabelling loop'''
    def stmt_hook(I, st, scope):
        if isinstance(st, ast.For):
            obj = scope.lookup('self')
            if I.loop_ordinal == 0:
                scope.set('edges0', I.getfield(obj, '_edges'))
                scope.set('seq0', I.getfield(I.getfield(obj, '_nodes'), 'seq'))
            else:
                scope.set('edges1', I.getfield(obj, '_edges'))
    return stmt_hook


def c_dependencies():
    return Contract(
        DG, 'DepGraph.dependencies', params={'self': 'Obj:DepGraph', 'node': 'Ref:Node'}, returns='Seq[Ref:Node]',
        requires=['GI(self)'],
        ensures=[('exactly-the-direct-dependencies', 'all(any(result[k] is b for k in range(len(result))) == has_edge(self, node, b) for b in Nodes)'),
                 ('pure', REP_SAME)],
        signals={'ValueError': 'not has_node(self, node)'})


def c_dependees():
    return Contract(
        DG, 'DepGraph.dependees', params={'self': 'Obj:DepGraph', 'node': 'Ref:Node'}, returns='Seq[Ref:Node]',
        requires=['GI(self)'],
        ensures=[('exactly-the-direct-dependees', 'all(any(result[k] is a for k in range(len(result))) == has_edge(self, a, node) for a in Nodes)'),
                 ('pure', REP_SAME)],
        signals={'ValueError': 'not has_node(self, node)'})


# ---- ownership: a graph owns its node list (C16: "copies are independent", the plain-graph mirror has its own nodes)
def own_world():
    w = make_world()

    def rlist_new(I, args, kwargs):
        # assumed contract of RList(iterable): a NEW list holding the elements of the iterable in order
        if not args:
            return I.alloc('RList', {'seq': I.world.lib.empty_of(I, T('Seq', NODE))})
        src = args[0]
        if isinstance(src, SObj) and src.cls == 'RList':
            return I.alloc('RList', {'seq': I.getfield(src, 'seq')})
        if isinstance(src, SV) and src.typ == T('Seq', NODE):
            return I.alloc('RList', {'seq': src})
        raise Undecided('RList(...) of this argument')
    w.construct_hooks['RList'] = rlist_new

    def complete(I, dct):
        # assumed contract of DepGraph._complete (verified by the bounded histories): a new dictionary, same keys plus every value, fresh sets
        out = I.fresh(parse_type(EDGES) if isinstance(EDGES, str) else EDGES, 'completed_edges')
        return out
    w.class_models['DepGraph'].c__complete = lambda I, cls: complete
    return w


def c_init():
    return Contract(DG, 'DepGraph.__init__', params={'nodes': 'Obj:RList', 'edges': EDGES}, signals={},
                    ensures=[('C16-the-graph-owns-its-node-list', 'self._nodes is not nodes'),
                             ('C16-the-node-list-holds-the-given-nodes-in-order', 'same(self._nodes.seq, nodes.seq) and same(nodes.seq, old(nodes.seq))')],
                    variant='from-a-node-list')


def init_setup(I, scope):
    scope.set('self', I.alloc('DepGraph', {}))


def c_copy():
    return Contract(DG, 'DepGraph.copy', params={'self': 'Obj:DepGraph'}, signals={},
                    ensures=[('C16-a-copy-has-its-own-node-list', 'returned._nodes is not self._nodes and returned is not self'),
                             ('C16-a-copy-holds-the-same-nodes-in-order', 'same(returned._nodes.seq, self._nodes.seq)'),
                             ('C16-copying-leaves-the-graph-untouched', REP_SAME)])


def units(tier):
    return ['contains', 'add_node', 'add_dependency', 'remove_dependency', 'remove_node', 'init', 'copy', 'rlist_histories', 'histories', 'algorithms', 'flatten']


def _replay_native(name, inp):
    out = dn.histories('quick', 0)
    if out['failures']:
        fl = out['failures'][0]
        return {'reproduced': True, 'observed': fl['observed'], 'input_found': fl['input'], 'by': 'bounded unit histories'}
    out = dn.flatten_cases('quick', 0)
    if out['failures']:
        fl = out['failures'][0]
        return {'reproduced': True, 'observed': fl['observed'], 'input_found': fl['input'], 'by': 'bounded unit flatten'}
    return {'reproduced': False, 'note': 'bounded stand-ins found no failing input'}


def run_unit(unit, tier, seed, known):
    import logging
    logging.disable(logging.CRITICAL)
    natives = {'rlist_histories': dn.rlist_histories, 'histories': dn.histories, 'algorithms': dn.algorithms, 'flatten': dn.flatten_cases}
    if unit in natives:
        limit = 300 if tier == 'quick' else 3000
        try:
            with dn.time_limit(limit):
                return {'bounded': [natives[unit](tier, seed)]}
        except dn.Hang:
            return {'bounded': [{'name': unit, 'bound': f'did not finish within {limit} s', 'evaluations': 1, 'distinct': 1,
                                 'failures': [{'input': {'unit': unit}, 'observed': f'the real code did not come back within {limit} s on some case of this unit',
                                               'expected': 'every operation terminates'}]}]}
    if unit == 'init':
        res = verify_function(own_world(), c_init(), setup=init_setup)
        return {'functions': [prop.discharge(res, tier, ID, lambda m, r: {'note': 'see model text'}, _replay_native)]}
    if unit == 'copy':
        w = own_world()
        ci = c_init()

        def new_graph(I, args, kwargs):
            # the constructed graph: fresh fields, constrained by the contract of __init__ (verified by unit init)
            g = I.alloc('DepGraph', {'_nodes': I.alloc('RList', {'seq': I.fresh(T('Seq', NODE), 'new_nodes')}), '_edges': I.fresh(parse_type(EDGES), 'new_edges')})
            I.apply_contract(ci, list(args), dict(kwargs), recv=g)
            return g
        w.construct_hooks['DepGraph'] = new_graph
        res = verify_function(w, c_copy())
        return {'functions': [prop.discharge(res, tier, ID, lambda m, r: {'note': 'see model text'}, _replay_native)]}
    w = make_world()
    w.add(c_contains())
    w.add(c_add_node())
    hooks = None
    if unit == 'contains':
        c = c_contains()
    elif unit == 'add_node':
        c = c_add_node()
    elif unit == 'add_dependency':
        c = c_add_dependency()
    elif unit == 'remove_dependency':
        c = c_remove_dependency()
    elif unit == 'remove_node':
        c = c_remove_node()
        hooks = {'stmt': remove_node_hooks()}
    elif unit == 'dependencies':
        c = c_dependencies()
    elif unit == 'dependees':
        c = c_dependees()
    else:
        raise KeyError(unit)
    res = verify_function(w, c, hooks=hooks)
    return {'functions': [prop.discharge(res, tier, ID, lambda m, r: {'note': 'see model text'}, _replay_native)]}


def replay(name, inp):
    inp = inp or {}
    if 'history' in inp:
        return dn.replay_history(inp)
    if 'nested' in inp:
        return dn.replay_flatten(inp)
    if 'rlist_history' in inp:
        out = dn.rlist_histories('quick', 0)
        return {'reproduced': bool(out['failures']), 'observed': out['failures'][:1]}
    if 'edges' in inp:
        return dn.replay_algorithms(inp)
    return _replay_native(name, inp)
