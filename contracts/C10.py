'''C10 -- numbers read from Tripoli-4 outputs are the numbers written there (partial: level other).'''
import ast
import z3

from pyvc import prop, extract, theory as th
from pyvc.values import SV, SObj, SClass, SNamespace, T, INT, BOOL, STR, NUM, Undecided, lift, coerce, parse_type
from pyvc.engine import Contract
from pyvc.verify import verify_function, ClassModel
from pyvc.libspec import SArr
from .dataset_world import make_world
from . import listing_native as ln
from . import apollo_native as an

ID = 'C10'
LEVEL = 'other'
DC = 'valjean/eponine/tripoli4/data_convertor.py'
COMMON = 'valjean/eponine/tripoli4/common.py'
EXPLANATION = ('Partial. By contract (obligations from the AST, z3 over extended reals): the conversion of parsed scores into datasets -- data_convertor.result_with_error '
               '(value = a copy of the score, error = sigma% * score * 0.01 pointwise; sigma taken as it is when both sigma and sigma% are stored; NaN dataset for a result that '
               'is not converged) and data_convertor.array_result on the full array (value = a copy of the score column, error = sigma% * score * 0.01 pointwise, the bins of '
               'the array, inputs untouched); and the re-ordering of decreasing bins, DictBuilder.convert_bins_to_increasing_arrays / _flip_bins_for_dim: for the dimension '
               'at position a of self.bins whose first two bins decrease, the bins are reversed and EVERY stored array is flipped along axis a, exactly once; the other '
               'dimensions and axes are left alone (trace contract over np.flip); the whole parseString call runs under the pyparsing lock (structural obligation shared with C11: the grammar rewrites module-level definitions while it parses).  Not decidable by a contract within reach: that the pyparsing grammar (grammar.py, common.py, '
               'transform.py: about 4 600 lines of combinators and parse actions), the scanner\'s state machine and the h5py group walk return what the FILE says -- the '
               'specification would be the Tripoli-4 / Apollo3 output formats themselves.  That part is covered only by the labelled bounded unit: the shipped listings '
               're-written with known, pairwise distinct numbers (tables as printed and in the reverse order), parsed by the real Parser and every number looked up (step-integrated results on the bin of the table they close); and, for Apollo3, every stored result of the shipped HDF5 files read with '
               'Reader and picked with Picker against the arrays h5py returns, each file followed in the same process by a copy storing its isotopes in the reverse order; the IFP adjoint-criticality table builder is driven directly for every subset of its six variables (the shipped listing has two layouts only).')
ASSUMPTIONS = [
    'A-real, A-numpy (pointwise arithmetic, copy, flip(a, axis) reverses along that axis and nothing else); structured arrays are modelled as records of equally shaped field arrays',
    'Dataset.__init__ through its contract (stores value, error, a shallow copy of bins, name, what; C08)',
    'the axis of dimension d in every array of a DictBuilder is the position of d in self.bins (the builders create 7-d arrays in the order u, v, w, e, t, mu, phi: not verified)',
    'grammar, parse actions, scanner, transform.py, HDF5 reader / picker: executed by the bounded units only (no contract); HDF5 files other than the 6 shipped ones and their re-ordered copies are not generated',
    'bins_reduction and integrated_result (stepped slices, np.full) are not under contract: bounded unit only',
    'A-log: LOGGER calls dropped',
]
TRUSTED = ['z3 unsat answers', 'CPython ast module', 'pyvc engine (symbolic executor, libspec / libnumpy encodings)', 'pyparsing and the grammar modules (executed, not verified)']

ALL = 'all({body} for i in range(the_score.size))'


def _conv_world():
    from pyvc.values import SFunc
    from pyvc.engine import Scope
    w = make_world(ndim=1, bins_layout=None)
    w.globals['LOGGER'] = SNamespace('LOGGER', dropped=True)
    w.exc_parents['KeyError'] = 'LookupError'
    # helpers of the same module are executed (their real bodies are inlined), not assumed
    for helper in ('nan_result', 'special_array'):
        fn = extract.find(DC, helper)
        w.globals[helper] = SFunc(fn, Scope(None, {}), helper)
    return w


def _arrays(I, n=None):
    L = I.world.lib
    n = z3.Int(I.path.name('ncells')) if n is None else n
    I.path.assume(n >= 0)
    shp = (SV(INT, n),)
    return (lambda base: L.fresh_array(I, base, n=n, shape=shp)), n


def c_result_with_error(variant):
    ens = {'score-and-sigma-percent': [('C10-the-value-is-the-printed-score', ALL.format(body='same(returned.value[i], the_score[i])') + ' and returned.value.size == the_score.size'),
                                       ('C10-the-error-is-the-score-times-the-printed-relative-sigma-percent', ALL.format(body='same(returned.error[i], the_sigma[i] * the_score[i] * 0.01)')
                                        + ' and returned.error.size == the_score.size'),
                                       ('C10-the-parsed-arrays-are-not-shared-with-the-dataset', 'returned.value is not the_score'),
                                       ('C10-the-parsed-arrays-are-left-untouched', 'result[res_type]["score"] is the_score and result[res_type]["sigma"] is the_sigma')],
           'absolute-sigma-stored': [('C10-the-value-is-the-printed-score', ALL.format(body='same(returned.value[i], the_score[i])')),
                                     ('C10-an-absolute-sigma-is-taken-as-it-is', ALL.format(body='same(returned.error[i], the_sigma[i])') + ' and returned.error is not the_sigma')],
           'not-converged': [('C10-a-result-that-is-not-converged-reads-as-NaN', 'isnan(returned.value.item()) and isnan(returned.error.item())')]}[variant]
    return Contract(DC, 'result_with_error', params={'result': 'None', 'res_type': 'None', 'name': 'Str', 'what': 'Str', }, ensures=ens, signals={}, variant=variant)


def rwe_setup(variant):
    def setup(I, scope):
        mk, n = _arrays(I)
        score, sigma = mk('score'), mk('sigma')
        scope.set('the_score', score)
        scope.set('the_sigma', sigma)
        scope.set('res_type', 'generic')
        if variant == 'score-and-sigma-percent':
            inner = {'score': score, 'sigma': sigma}
        elif variant == 'absolute-sigma-stored':
            inner = {'score': score, 'sigma': sigma, 'sigma%': mk('sigma_percent')}
        else:
            inner = {'not_converged': 'Not converged'}
        scope.set('result', {'generic': inner})
    return setup


class StructArray(ClassModel):
    '''a numpy structured array: a record of field arrays of one shape'''
    name = 'StructArray'
    fields = {}

    def m___getitem__(self, I, me, key):
        if not isinstance(key, str):
            raise Undecided('structured array indexed by something else than a field name')
        f = I.getfield(me, 'fields')
        if key not in f:
            I.raise_('ValueError')
        return f[key]

    def p_shape(self, I, me):
        return I.getfield(me, 'shape')


def c_array_result():
    return Contract(DC, 'array_result', params={'farray_res': 'None', 'res_type': 'None', 'name': 'Str', 'what': 'Str'}, ensures=[
        ('C10-the-value-is-the-printed-score', ALL.format(body='same(returned.value[i], the_score[i])') + ' and returned.value.size == the_score.size'),
        ('C10-the-error-is-the-score-times-the-printed-relative-sigma-percent', ALL.format(body='same(returned.error[i], the_sigma[i] * the_score[i] * 0.01)') + ' and returned.error.size == the_score.size'),
        ('C10-the-bins-are-those-of-the-array', 'returned.bins["e"] is the_bins'),
        ('C10-the-parsed-arrays-are-not-shared-with-the-dataset', 'returned.value is not the_score')], signals={}, variant='full-array')


def array_setup(I, scope):
    mk, n = _arrays(I)
    score, sigma = mk('score'), mk('sigma')
    L = I.world.lib
    nb = z3.Int(I.path.name('nedges'))
    I.path.assume(nb == n + 1)
    ebins = L.fresh_array(I, 'e_bins', n=nb, shape=(SV(INT, nb),))
    arr = I.alloc('StructArray', {'fields': {'score': score, 'sigma': sigma}, 'shape': (SV(INT, n),)})
    scope.set('the_score', score)
    scope.set('the_sigma', sigma)
    scope.set('the_bins', ebins)
    scope.set('res_type', 'spectrum')
    scope.set('farray_res', {'spectrum': {'array': arr, 'bins': {'e': ebins}}})


# ---------------------------------------------------------------------------------------
# decreasing bins are put in increasing order together with every array
DIMS = ('e', 't', 'mu')


def flip_world():
    w = make_world(ndim=1, bins_layout=None)
    w.globals['LOGGER'] = SNamespace('LOGGER', dropped=True)
    orig_flip = w.globals['np'].members.get('flip')

    def np_flip(I, a, axis=None):
        if isinstance(a, SObj) and a.cls == 'NDArray':
            new = I.alloc('NDArray', {'flips': tuple(I.getfield(a, 'flips')) + (axis,), 'origin': I.getfield(a, 'origin')})
            return new
        if isinstance(a, SArr):
            I.bins_flipped.append(a)
            n = a.n
            return I.world.lib._like(a, lambda i, e=a.elem, n=n: e(n - 1 - i), a.dtype)
        raise Undecided('np.flip of this value')
    w.globals['np'].members['flip'] = np_flip
    w.globals['np'].members['array'] = lambda I, x: x
    for cname in ('NDArray', 'DictBuilder'):
        w.class_models[cname] = type(cname, (ClassModel,), {'name': cname, 'fields': {}})(w)
    return w


def flip_setup(I, scope):
    L = I.world.lib
    I.bins_flipped = []
    bins = {}
    for d in DIMS:
        b = L.fresh_array(I, f'bins_{d}')
        b.shape = (SV(INT, b.n),)
        bins[d] = b
    I.initial_bins = dict(bins)
    arrays = {k: I.alloc('NDArray', {'flips': (), 'origin': k}) for k in ('default', 'integrated_res')}
    I.initial_arrays = dict(arrays)
    me = I.alloc('DictBuilder', {'bins': bins, 'arrays': arrays, 'units': {}})
    scope.set('self', me)
    # the real _flip_bins_for_dim is inlined (a method of the same class, executed, not assumed)
    fn = extract.find(COMMON, 'DictBuilder._flip_bins_for_dim')
    from pyvc.values import SFunc
    from pyvc.engine import Scope
    sf = SFunc(fn, Scope(None, {}), '_flip_bins_for_dim')
    I.world.class_models['DictBuilder'].m__flip_bins_for_dim = lambda I2, me2, dim, axis: I2.inline(sf, [me2, dim, axis], {})


def c_flip():
    return Contract(COMMON, 'DictBuilder.convert_bins_to_increasing_arrays', params={}, signals={}, variant=f'dimensions-{"-".join(DIMS)}')


def flip_check(I, scope, outcome):
    from pyvc.engine import _b
    p = I.path
    L = f'{COMMON}::DictBuilder.convert_bins_to_increasing_arrays[dimensions-{"-".join(DIMS)}]'
    me = scope.lookup('self')
    bins, arrays = I.getfield(me, 'bins'), I.getfield(me, 'arrays')
    order_ok = isinstance(bins, dict) and tuple(bins) == DIMS
    p.oblige(f'{L}::post::C10-the-dimensions-keep-their-order', order_ok and outcome[0] == 'return', kind='post', meta={'expr': 'self.bins has the same keys in the same order'})
    if not order_ok:
        return
    want_axes = []
    for a, d in enumerate(DIMS):
        b0 = I.initial_bins[d]
        decreasing = z3.And(b0.n > 1, th.num_lt(b0.elem(z3.IntVal(1)), b0.elem(z3.IntVal(0))))
        nb = bins[d]
        i = z3.Int(p.name('i'))
        flipped = z3.And(nb.n == b0.n, z3.ForAll([i], z3.Implies(z3.And(0 <= i, i < b0.n), nb.elem(i) == b0.elem(b0.n - 1 - i)))) if isinstance(nb, SArr) else z3.BoolVal(False)
        same = z3.And(nb.n == b0.n, z3.ForAll([i], z3.Implies(z3.And(0 <= i, i < b0.n), nb.elem(i) == b0.elem(i)))) if isinstance(nb, SArr) else z3.BoolVal(False)
        p.oblige(f'{L}::post::C10-decreasing-bins-are-reversed-increasing-bins-are-kept', z3.If(decreasing, flipped, same), kind='post',
                 meta={'expr': f'bins[{d!r}] reversed iff its first two entries decrease'})
        want_axes.append((a, decreasing))
    for k, arr0 in I.initial_arrays.items():
        arr = arrays.get(k)
        ok = isinstance(arr, SObj) and arr.cls == 'NDArray' and I.getfield(arr, 'origin') == k
        flips = tuple(I.getfield(arr, 'flips')) if ok else ()
        ok = ok and len(set(flips)) == len(flips) and all(isinstance(f, int) for f in flips)
        conds = [(dec if a in flips else z3.Not(dec)) for a, dec in want_axes]
        extra = [f for f in flips if f not in range(len(DIMS))]
        p.oblige(f'{L}::post::C10-every-array-is-flipped-exactly-along-the-axes-of-the-reversed-dimensions', z3.And(*conds) if ok and not extra else False, kind='post',
                 meta={'expr': f'arrays[{k!r}] flipped once along axis a iff the bins at position a decrease (flips: {flips})'})


# ---- the requested edition: Scanner.batch_number maps a (positive or negative) index to the batch number at that position
SCANF = 'valjean/eponine/tripoli4/scan.py'


def c_batch_number():
    return Contract(SCANF, 'Scanner.batch_number', params={'batch_index': 'Int'}, returns='Int',
                    requires=['-len(edition_numbers) <= batch_index and batch_index < len(edition_numbers)'],
                    ensures=[('C10-the-edition-at-the-requested-position-counted-from-the-end-when-negative',
                              'same(returned, edition_numbers[batch_index if batch_index >= 0 else len(edition_numbers) + batch_index])')], signals={})


def batch_number_world():
    from pyvc.verify import World
    w = World()
    w.globals['LOGGER'] = SNamespace('LOGGER', dropped=True)

    class ScannerM(ClassModel):
        name = 'Scanner'
        fields = {}

        def m_keys(self, I, me):
            return I.edition_numbers      # the batch numbers of the stored editions, in listing order (Mapping.keys of the ordered dictionary)
    w.class_models['Scanner'] = ScannerM(w)
    return w


def batch_number_setup(I, scope):
    I.edition_numbers = I.fresh(parse_type('Seq[Int]'), 'edition_numbers')
    scope.set('edition_numbers', I.edition_numbers)
    scope.set('self', I.alloc('Scanner', {'_collres': I.edition_numbers}))


def units(tier):
    return ['result_with_error', 'array_result', 'flip_bins', 'batch_number', 'parse_lock', 'native', 'native_ifp', 'native_apollo3']


def _replay_native(name, inp):
    out = ln.sweep('quick', 0)
    if out['failures']:
        fl = out['failures'][0]
        return {'reproduced': True, 'observed': fl['observed'], 'input_found': fl['input'], 'by': 'native re-written listings sweep'}
    return {'reproduced': False, 'note': 'native sweep found no failing listing'}


def run_unit(unit, tier, seed, known):
    import logging
    import warnings
    logging.disable(logging.CRITICAL)
    warnings.filterwarnings('ignore')
    D = lambda res: prop.discharge(res, tier, ID, lambda m, r: {'note': 'see model text'}, _replay_native)      # noqa
    if unit == 'native_ifp':
        from . import ifp_native
        return {'bounded': [ifp_native.sweep(tier, seed)]}
    if unit == 'parse_lock':
        # the grammar rewrites module-level definitions while it parses (dimensions of the KIJ matrices, widths of the IFP tables): a parse is only the reading of ITS
        # listing if the whole parseString call runs under PYPARSING_LOCK (structural obligation shared with C11; tasks parse from 10 worker threads by default)
        from . import C11
        return C11.run_unit('worker', tier, seed, known)
    if unit == 'native':
        out = ln.sweep(tier, seed)
        seen = []
        if out.get('known_seen_inputs') and any(k.get('id') == 'spectrum-skipped-next-to-a-mesh' for k in known):
            k = next(k for k in known if k.get('id') == 'spectrum-skipped-next-to-a-mesh')
            seen.append({'reproduced': True, 'what': k['what']})
        elif out.get('known_seen_inputs'):
            out['failures'] = [{'input': x, 'observed': 'the spectrum printed next to a mesh is not in the parse result', 'expected': 'every printed score is read'}
                               for x in out['known_seen_inputs']] + out['failures']
        return {'bounded': [out], 'known_seen': seen}
    if unit == 'native_apollo3':
        return {'bounded': [an.sweep(tier, seed)]}
    if unit == 'result_with_error':
        out = []
        for variant in ('score-and-sigma-percent', 'absolute-sigma-stored', 'not-converged'):
            w = _conv_world()
            w.globals['isnan'] = lambda I, x: SV(BOOL, th.is_nan(coerce(x if isinstance(x, SV) else lift(x), NUM).t))
            out.append(D(verify_function(w, c_result_with_error(variant), setup=rwe_setup(variant))))
        return {'functions': out}
    if unit == 'array_result':
        w = _conv_world()
        w.class_models['StructArray'] = StructArray(w)
        return {'functions': [D(verify_function(w, c_array_result(), setup=array_setup))]}
    if unit == 'batch_number':
        return {'functions': [D(verify_function(batch_number_world(), c_batch_number(), setup=batch_number_setup))]}
    if unit == 'flip_bins':
        return {'functions': [D(verify_function(flip_world(), c_flip(), setup=flip_setup, extra_check=flip_check))]}
    raise KeyError(unit)


def replay(name, inp):
    if inp and 'hdf5' in inp:
        return an.replay(inp)
    if inp and 'listing' in inp:
        return ln.replay(inp)
    return _replay_native(name or '', inp)
