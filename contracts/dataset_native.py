'''Native bounded stand-in for C08 (labelled bounded): dataset arithmetic, copies, masks and squeezes on small shapes.'''
import itertools
import math


def _mk(shape, vals, errs, edges=True, name='d', what='w'):
    import numpy as np
    from collections import OrderedDict
    from valjean.eponine.dataset import Dataset
    v = np.array(vals, dtype=float).reshape(shape)
    e = np.array(errs, dtype=float).reshape(shape)
    bins = OrderedDict()
    for d, n in enumerate(shape):
        bins[f'b{d}'] = np.arange(n + (1 if edges else 0), dtype=float) * (d + 1)
    return Dataset(v, e, bins=bins, name=name, what=what)


def _snap(ds):
    return (ds.value.tobytes(), ds.error.tobytes(), tuple((k, v.tobytes()) for k, v in ds.bins.items()), ds.name, ds.what, ds.value.shape)


def _wf(ds, label):
    import numpy as np
    probs = []
    if np.shape(ds.value) != np.shape(ds.error):
        probs.append(f'{label}: value and error have different shapes')
    if ds.bins and len(ds.bins) != np.ndim(ds.value):
        probs.append(f'{label}: {len(ds.bins)} bins for {np.ndim(ds.value)} dimensions')
    for (k, b), n in zip(ds.bins.items(), np.shape(ds.value)):
        if len(b) not in (n, n + 1):
            probs.append(f'{label}: bins {k} have {len(b)} entries for {n} cells')
    if np.any(np.asarray(ds.error) < 0):
        probs.append(f'{label}: negative error {np.asarray(ds.error).tolist()}')
    return probs


def _close(a, b):
    import numpy as np
    return np.allclose(a, b, rtol=1e-12, atol=0, equal_nan=True)


def sweep(tier, seed):
    import numpy as np
    import operator
    fails, n = [], 0
    shapes = [(1,), (2,), (3,), (2, 2), (3, 2)] if tier != 'quick' else [(1,), (3,), (2, 2)]
    ops = {'+': operator.add, '-': operator.sub, '*': operator.mul, '/': operator.truediv}
    consts = [-2, -1, 0.5, 3]
    for shape in shapes:
        size = int(np.prod(shape))
        v1 = [(-1) ** k * (k + 1.5) for k in range(size)]
        e1 = [0.1 * (k + 1) for k in range(size)]
        v2 = [(k + 2.0) * (1 if k % 3 else -1) for k in range(size)]
        e2 = [0.05 * (k + 2) for k in range(size)]
        for edges in (True, False):
            a = _mk(shape, v1, e1, edges, 'a', 'wa')
            b = _mk(shape, v2, e2, edges, 'b', 'wb')
            # dataset o dataset
            for sym, f in ops.items():
                n += 1
                sa, sb = _snap(a), _snap(b)
                r = f(a, b)
                probs = _wf(r, f'a {sym} b')
                want_v = f(a.value, b.value)
                if sym in '+-':
                    want_e = np.sqrt(a.error ** 2 + b.error ** 2)
                elif sym == '*':
                    want_e = np.abs(want_v) * np.sqrt((a.error / a.value) ** 2 + (b.error / b.value) ** 2)
                else:
                    want_e = np.abs(want_v) * np.sqrt((a.error / a.value) ** 2 + (b.error / b.value) ** 2)
                if not _close(r.value, want_v):
                    probs.append(f'a {sym} b: value {r.value.tolist()} != {want_v.tolist()}')
                if not _close(r.error, want_e):
                    probs.append(f'a {sym} b: error {r.error.tolist()} != first-order uncorrelated {want_e.tolist()}')
                if list(r.bins) != list(a.bins) or any(not np.array_equal(r.bins[k], a.bins[k]) for k in a.bins):
                    probs.append(f'a {sym} b: bins of the left operand not kept')
                if _snap(a) != sa or _snap(b) != sb:
                    probs.append(f'a {sym} b: an operand was modified')
                if probs:
                    fails.append({'input': {'shape': list(shape), 'edges': edges, 'op': f'dataset {sym} dataset'}, 'observed': probs[:3], 'expected': 'C08 oracle'})
            # dataset o number / array
            for sym, f in ops.items():
                for c in consts + ['array', 'uint8 array']:
                    n += 1
                    cc = np.array([(-1) ** k * (k + 1.0) for k in range(size)]).reshape(shape) if c == 'array' else c
                    if c == 'uint8 array':
                        cc = np.arange(1, size + 1, dtype=np.uint8).reshape(shape)          # counts: an unsigned dtype
                    sa = _snap(a)
                    r = f(a, cc)
                    probs = _wf(r, f'a {sym} {c}')
                    if not _close(r.value, f(a.value, cc)):
                        probs.append(f'a {sym} {c}: value')
                    want_e = a.error if sym in '+-' else (a.error * np.abs(cc) if sym == '*' else a.error / np.abs(cc))
                    if not _close(r.error, want_e):
                        probs.append(f'a {sym} {c}: error {np.asarray(r.error).tolist()} != {np.asarray(want_e).tolist()} (a constant factor scales the error by its magnitude)')
                    if _snap(a) != sa:
                        probs.append(f'a {sym} {c}: the operand was modified')
                    if probs:
                        fails.append({'input': {'shape': list(shape), 'edges': edges, 'op': f'dataset {sym} {c}'}, 'observed': probs[:3], 'expected': 'C08 oracle'})
            # copy shares no data; mask / squeeze give well-formed datasets and leave the original alone
            n += 1
            sa = _snap(a)
            cp = a.copy()
            probs = _wf(cp, 'copy')
            if _snap(cp) != sa:
                probs.append('copy differs from the original')
            cp.value[...] = 99.0
            cp.error[...] = 77.0
            for k in cp.bins:
                cp.bins[k][...] = -5.0
            if _snap(a) != sa:
                changed = [k for k in a.bins if a.bins[k].tobytes() != dict(sa[2])[k]]
                probs.append(f'writing into the copy changed the original (bins {changed})' if changed else 'writing into the copy changed the original')
            if probs:
                fails.append({'input': {'shape': list(shape), 'edges': edges, 'op': 'copy'}, 'observed': probs[:3], 'expected': 'a copy shares no data with its original'})
            a = _mk(shape, v1, e1, edges, 'a', 'wa')      # the copy test may have damaged a (shared bins)
            sa = _snap(a)
            n += 1
            sq = a.squeeze()
            probs = _wf(sq, 'squeeze') if all(d > 1 for d in shape) or True else []
            if _snap(a) != sa:
                probs.append('squeeze modified the original')
            # chains
            n += 1
            ch = ((a + b) * 2 - a / b).copy() * -1
            probs += _wf(ch, 'chain ((a+b)*2 - a/b).copy()*-1')
            if _snap(a) != sa:
                probs.append('a chain of operations modified an operand')
            if probs:
                fails.append({'input': {'shape': list(shape), 'edges': edges, 'op': 'squeeze/chain'}, 'observed': probs[:3], 'expected': 'well-formed results, operands untouched'})
            # exact operands (all errors zero) and a right operand WITHOUT bins: the result is still the left operand's dataset (bins, name, what)
            from valjean.eponine.dataset import Dataset
            for zero_left, zero_right, right_bins in itertools.product((False, True), (False, True), (True, False)):
                a2 = _mk(shape, v1, [0.0] * size if zero_left else e1, edges, 'left', 'wl')
                b2 = _mk(shape, v2, [0.0] * size if zero_right else e2, edges, 'right', 'wr')
                if not right_bins:
                    b2 = Dataset(b2.value.copy(), b2.error.copy(), name='right', what='wr')
                for sym, f in ops.items():
                    n += 1
                    sa, sb = _snap(a2), _snap(b2)
                    try:
                        r = f(a2, b2)
                    except ValueError:
                        continue          # the documented refusal of inconsistent operands
                    probs = _wf(r, f'left {sym} right')
                    if list(r.bins) != list(a2.bins) or any(not np.array_equal(r.bins[k], a2.bins[k]) for k in a2.bins):
                        probs.append(f'left {sym} right: bins of the left operand not kept (result has {list(r.bins)})')
                    if r.name != a2.name:
                        probs.append(f'left {sym} right: the result is named {r.name!r}')
                    if not _close(r.value, f(a2.value, b2.value)):
                        probs.append(f'left {sym} right: value')
                    if _snap(a2) != sa or _snap(b2) != sb:
                        probs.append(f'left {sym} right: an operand was modified')
                    if probs:
                        fails.append({'input': {'shape': list(shape), 'edges': edges, 'op': f'dataset {sym} dataset', 'left_errors_all_zero': zero_left,
                                                'right_errors_all_zero': zero_right, 'right_operand_has_bins': right_bins}, 'observed': probs[:3], 'expected': 'C08 oracle'})
            # chains of masks: masking a masked dataset leaves the first one as it was
            n += 1
            a3 = _mk(shape, v1, e1, edges, 'a', 'wa')
            mA = np.zeros(shape, dtype=bool)
            mA.flat[0] = True
            mB = np.zeros(shape, dtype=bool)
            mB.flat[-1] = True
            sa = _snap(a3)
            m1 = a3.mask(mA)
            snap1 = (np.ma.getmaskarray(m1.value).tobytes(), np.ma.getmaskarray(m1.error).tobytes(), np.ma.getdata(m1.value).tobytes())
            m2 = m1.mask(mB)
            probs = _wf(m1, 'mask') + _wf(m2, 'mask of a mask')
            if (np.ma.getmaskarray(m1.value).tobytes(), np.ma.getmaskarray(m1.error).tobytes(), np.ma.getdata(m1.value).tobytes()) != snap1:
                probs.append('masking a masked dataset changed the mask of the first one (operand modified)')
            if np.ma.getmaskarray(m2.value).tolist() != (mA | mB).tolist() and size > 1:
                probs.append(f'mask of a mask: cells masked {np.ma.getmaskarray(m2.value).tolist()}, expected the union {(mA | mB).tolist()}')
            if _snap(a3) != sa:
                probs.append('mask modified the original')
            if probs:
                fails.append({'input': {'shape': list(shape), 'edges': edges, 'op': 'ds.mask(A).mask(B)'}, 'observed': probs[:3], 'expected': 'operands are never modified; masks accumulate'})
        if len(fails) >= 10:
            break
    # 0-d (scalar) datasets and integer-valued datasets
    from valjean.eponine.dataset import Dataset
    specials = [('0-d', Dataset(np.float64(2.0), np.float64(0.1), name='a'), Dataset(np.float64(-4.0), np.float64(0.2), name='b')),
                ('integers', Dataset(np.array([2, -4, 6]), np.array([1, 1, 2]), name='a'), Dataset(np.array([3, 5, -7]), np.array([1, 2, 1]), name='b'))]
    for label, a, b in specials:
        for sym, f in ops.items():
            for other, kind in ((b, 'dataset'), (-3, 'number'), (2.5, 'number')):
                n += 1
                sa = (np.array(a.value).tobytes(), np.array(a.error).tobytes())
                try:
                    r = f(a, other)
                except Exception as e:      # noqa
                    fails.append({'input': {'datasets': label, 'op': f'dataset {sym} {kind}'}, 'observed': f'raised {e!r}', 'expected': 'a dataset'})
                    continue
                ov = other.value if kind == 'dataset' else other
                av, ae = np.asarray(a.value, dtype=float), np.asarray(a.error, dtype=float)
                want_v = f(av, np.asarray(ov, dtype=float))
                if kind == 'dataset':
                    oe = np.asarray(other.error, dtype=float)
                    want_e = np.sqrt(ae ** 2 + oe ** 2) if sym in '+-' else np.abs(want_v) * np.sqrt((ae / av) ** 2 + (oe / np.asarray(ov, dtype=float)) ** 2)
                else:
                    want_e = ae if sym in '+-' else (ae * abs(other) if sym == '*' else ae / abs(other))
                probs = []
                if not _close(np.asarray(r.value, dtype=float), want_v):
                    probs.append(f'{label}: a {sym} {kind}: value {np.asarray(r.value).tolist()} != {np.asarray(want_v).tolist()}')
                if not _close(np.asarray(r.error, dtype=float), want_e):
                    probs.append(f'{label}: a {sym} {kind}: error {np.asarray(r.error).tolist()} != {np.asarray(want_e).tolist()}')
                if np.shape(r.value) != np.shape(r.error) or np.shape(r.value) != np.shape(a.value):
                    probs.append(f'{label}: a {sym} {kind}: shapes {np.shape(r.value)} / {np.shape(r.error)}')
                if (np.array(a.value).tobytes(), np.array(a.error).tobytes()) != sa:
                    probs.append(f'{label}: a {sym} {kind}: the operand was modified')
                if probs:
                    fails.append({'input': {'datasets': label, 'op': f'dataset {sym} {kind}'}, 'observed': probs[:3], 'expected': 'C08 oracle'})
    # mixed number types and array classes on the two sides (float / integer / float32 errors, masked and plain arrays), in both orders: same numbers whatever the order
    def mixes():
        f64 = Dataset(np.array([1.0, -2.0, 3.0]), np.array([0.5, 1.5, 2.5]), name='f64')
        yield 'float errors, integer errors', f64, Dataset(np.array([3.0, 5.0, -7.0]), np.array([1, 2, 1]), name='int-errors')
        yield 'float64 errors (1e20), float32 errors', Dataset(np.array([1.0, 2.0, 3.0]), np.array([1e20, 1.0, 2.0]), name='big'), \
            Dataset(np.array([1.0, 2.0, 3.0], dtype=np.float32), np.array([1.0, 2.0, 3.0], dtype=np.float32), name='f32')
        m = f64.mask(np.array([False, True, False]))
        yield 'masked, plain', m, Dataset(np.array([3.0, 5.0, -7.0]), np.array([1.0, 2.0, 1.0]), name='plain')
    for label, a, b in mixes():
        for sym in '+-':
            for x, y, order in ((a, b, 'left o right'), (b, a, 'right o left')):
                n += 1
                try:
                    r = ops[sym](x, y)
                except Exception as e:      # noqa
                    fails.append({'input': {'datasets': label, 'op': f'dataset {sym} dataset', 'order': order}, 'observed': f'raised {e!r}', 'expected': 'a dataset'})
                    continue
                xe, ye = np.ma.getdata(x.error).astype(float), np.ma.getdata(y.error).astype(float)
                want_e = np.sqrt(xe ** 2 + ye ** 2)
                keep = ~(np.ma.getmaskarray(x.value) | np.ma.getmaskarray(y.value))
                probs = []
                if not _close(np.ma.getdata(r.error).astype(float)[keep], want_e[keep]):
                    probs.append(f'{label} ({order}): error {np.ma.getdata(r.error).tolist()} != {want_e.tolist()}')
                if np.ma.getmaskarray(r.value).tolist() != np.ma.getmaskarray(r.error).tolist():
                    probs.append(f'{label} ({order}): value masked at {np.ma.getmaskarray(r.value).tolist()}, error masked at {np.ma.getmaskarray(r.error).tolist()}')
                if probs:
                    fails.append({'input': {'datasets': label, 'op': f'dataset {sym} dataset', 'order': order}, 'observed': probs[:3], 'expected': 'C08 oracle, whatever the order of the operands'})
    # the copy of a masked dataset is masked at the same cells; a left operand WITHOUT bins keeps having none, whatever the right operand holds
    from collections import OrderedDict as _OD
    n += 1
    md = Dataset(np.array([1.0, -2.0, 3.0]), np.array([0.5, 1.5, 2.5]), name='m').mask(np.array([False, True, False]))
    cp = md.copy()
    if np.ma.getmaskarray(cp.value).tolist() != [False, True, False] or np.ma.getmaskarray(cp.error).tolist() != [False, True, False]:
        fails.append({'input': {'op': 'ds.mask(A).copy()'}, 'observed': f'the copy is masked at {np.ma.getmaskarray(cp.value).tolist()} / {np.ma.getmaskarray(cp.error).tolist()}',
                      'expected': 'the mask of the original: [False, True, False]'})
    bare = Dataset(np.array([1.0, 2.0]), np.array([0.1, 0.2]), name='bare')
    binned = Dataset(np.array([3.0, 4.0]), np.array([0.1, 0.2]), bins=_OD([('e', np.array([0.0, 1.0, 2.0]))]), name='binned')
    for sym in '+-*/':
        n += 1
        try:
            r = ops[sym](bare, binned)
        except Exception:      # noqa
            continue
        if list(r.bins):
            fails.append({'input': {'op': f'dataset without bins {sym} dataset with bins'}, 'observed': f'the result has the bins {list(r.bins)}', 'expected': 'the bins of the left operand: none'})
    # an array operand with MORE dimensions / cells than the dataset: an error, or a well-formed dataset -- never a value that no longer matches its errors and bins
    for dshape, ashape in (((5,), (2, 5)), ((5,), (1, 5)), ((2, 5), (3, 2, 5)), ((1, 1), (2, 5)), ((), (3,))):
        for sym in '+-*/':
            n += 1
            size = int(np.prod(dshape)) if dshape else 1
            ds = Dataset(np.arange(1.0, size + 1).reshape(dshape) if dshape else np.float64(2.0), (np.full(dshape, 0.5) if dshape else np.float64(0.5)), name='d')
            arr = np.arange(1.0, int(np.prod(ashape)) + 1).reshape(ashape)
            try:
                r = ops[sym](ds, arr)
            except Exception:      # noqa
                continue
            if np.shape(r.value) != np.shape(r.error):
                fails.append({'input': {'dataset_shape': list(dshape), 'array_shape': list(ashape), 'op': f'dataset {sym} array'},
                              'observed': f'value of shape {np.shape(r.value)} with an error of shape {np.shape(r.error)}', 'expected': 'an error, or a well-formed dataset'})
    return {'name': 'dataset-arithmetic-native', 'evaluations': n, 'distinct': n, 'failures': fails[:10], 'exhaustive': False,
            'bound': f'shapes {shapes}, bins as edges and centres, finite values of either sign; dataset o dataset, dataset o number in {consts}, dataset o array (float and unsigned integer) for + - * /; '
                     'copy independence (writes into the copy incl. its bins), squeeze, one chain; exact operands (all errors zero) on either side x right operand with / without bins; a mask of a mask; 0-d datasets and integer-valued datasets with datasets and numbers; float / integer / float32 errors and masked / plain arrays in both orders; arrays that broadcast beyond the shape of the dataset; relative tolerance 1e-12 on the error formulas',
            'samples': [{'shape': [2, 2], 'edges': True, 'op': 'dataset * -1'}]}


def replay(inp):
    out = sweep('quick', 0)
    return {'reproduced': bool(out['failures']), 'observed': out['failures'][:1]}
