#!/usr/bin/env python3
'''Print the per-property "as built" table of DESIGN.md 10.1 from the evidence files and MANIFEST.json.'''
import json
import os

VERIF = os.path.dirname(os.path.dirname(os.path.abspath(__file__)))
man = json.load(open(os.path.join(VERIF, 'MANIFEST.json')))
print('| id | level | obligations (last run) | functions under a discharged contract (real code, re-read every run) | bounded units (never counted as proved) |')
print('|---|---|---|---|---|')
for c in man['checks']:
    pid = c['property_id']
    p = os.path.join(VERIF, 'evidence', pid + '.json')
    if not os.path.exists(p):
        continue
    e = json.load(open(p))
    cov = e['coverage']
    fns = sorted({f['function'].split('::')[-1].split('[')[0] for f in cov.get('functions_under_contract', [])})
    lem = sum(1 for o in cov.get('obligation_list', []) if o.get('kind') in ('lemma', 'frame') and '::lemma::' in o.get('name', ''))
    bnd = [f"{b['name']} ({b.get('evaluations')})" for b in cov.get('bounded_standins', [])]
    print(f"| {pid} | {c['level_claimed']['category']} | {cov.get('discharged')}/{cov.get('obligations')} | {', '.join('`' + f + '`' for f in fns)}" + (f' + {lem} lemmas' if lem else '')
          + f" | {'; '.join(bnd)} |")
