#!/bin/bash
# tools/recheck.sh <seed-id e.g. C07-5> [other property ids...] : re-run our check(s) against a confirmed seeded change (seeded/<seed-id>/patch.diff) after the
# checks were strengthened; only the "checks" field of meta.json and the check logs are rewritten (demo / suite results stay those of tools/seedcheck.sh).
S=$1; shift; ALSO="$@"
ID=${S%%-*}
OUT=/verif/seeded/$S
D=$(mktemp -d /var/tmp/reck.XXXXXX)
git -C /repo worktree add --detach -q "$D/r" HEAD >/dev/null 2>&1 || { echo "worktree failed"; exit 9; }
cleanup() { git -C /repo worktree remove --force "$D/r" >/dev/null 2>&1; rm -rf "$D"; }
trap cleanup EXIT
cd "$D/r"
git apply "$OUT/patch.diff" 2>/dev/null || git apply -3 "$OUT/patch.diff" 2>/dev/null || { echo "$S: patch does not apply to HEAD"; exit 8; }
mkdir -p "$D/ev"
RES=""
for P in $ID $ALSO; do
  REPO="$D/r" PYVC_EVIDENCE_DIR="$D/ev" /verif/bin/check $P --tier quick > "$D/check_$P.log" 2>&1; RC=$?
  V=$(grep -c '^VIOLATION' "$D/check_$P.log")
  FIRST=$(grep '^VIOLATION' "$D/check_$P.log" | head -3 | sed 's/.*replays.//' | tr '\n' ';')
  RES="$RES {\"check\": \"$P\", \"exit\": $RC, \"violation_lines\": $V, \"first\": \"$FIRST\"},"
  cp "$D/check_$P.log" "$OUT/check_$P.log"
done
python3 - "$OUT/meta.json" "[${RES%,}]" "$(git -C /repo rev-parse --short HEAD)" <<'PY'
import json, sys
p, res, head = sys.argv[1:4]
m = json.load(open(p))
if 'checks_first_run' not in m:
    m['checks_first_run'] = m.get('checks')
m['checks'] = json.loads(res)
m['rechecked'] = f'tools/recheck.sh after strengthening (scratch worktree of /repo HEAD {head})'
json.dump(m, open(p, 'w'), indent=1)
PY
echo "$S recheck:$RES"
