#!/usr/bin/env python3
'''Self-test of the checks (maintenance command, not registered in MANIFEST): every entry of catalogue.json is a deliberate edit of /repo applied to a
scratch worktree (bin/withpatch); "flagged" entries break a property and must make the check exit 1 with a VIOLATION line, "quiet" entries are harmless
(renamed locals ...) and must leave it at exit 0.  Usage: tools/selftest/run.py [check-id ...] [-j N]'''
import json
import os
import subprocess
import sys
from concurrent.futures import ThreadPoolExecutor

HERE = os.path.dirname(os.path.abspath(__file__))
VERIF = os.path.dirname(os.path.dirname(HERE))


def one(e):
    p = subprocess.run([os.path.join(VERIF, 'bin', 'withpatch'), e['edit'], '--', os.path.join(VERIF, 'bin', 'check'), e['check'], '--tier', 'quick'],
                       capture_output=True, text=True)
    out = p.stdout + p.stderr
    viol = [ln for ln in out.splitlines() if ln.startswith('VIOLATION')]
    ded = [v for v in viol if 'bounded_' not in v]
    und = [ln for ln in out.splitlines() if 'UNDECIDED' in ln]
    if 'edit failed' in out or 'patch does not apply' in out:
        verdict = 'EDIT-NO-LONGER-APPLIES'
    elif e['expect'] == 'flagged':
        verdict = 'ok' if p.returncode == 1 and viol else 'MISSED'
    else:
        verdict = 'ok' if p.returncode == 0 and not viol else 'FALSE-ALARM'
    return e, verdict, len(ded), len(viol) - len(ded), len(und)


def main():
    args = [a for a in sys.argv[1:] if not a.startswith('-')]
    jobs = int(sys.argv[sys.argv.index('-j') + 1]) if '-j' in sys.argv else 3
    if '-j' in sys.argv:
        args = [a for a in args if a != sys.argv[sys.argv.index('-j') + 1]]
    cat = [e for e in json.load(open(os.path.join(HERE, 'catalogue.json'))) if not args or e['check'] in args]
    bad = 0
    with ThreadPoolExecutor(max_workers=jobs) as ex:
        for e, verdict, nd, nb, nu in ex.map(one, cat):
            print(f"{verdict:24s} {e['check']} {e['expect']:8s} deductive={nd} bounded={nb} undecided={nu}  {e['label']}", flush=True)
            bad += verdict != 'ok'
    print(f'{len(cat)} entries, {bad} unexpected')
    return 1 if bad else 0


sys.exit(main())
