#!/usr/bin/env python3
'''Regenerate MANIFEST.json from the claimed property modules (maintenance command, not run by checks).'''
import importlib
import json
import os
import sys

VERIF = os.path.dirname(os.path.dirname(os.path.abspath(__file__)))
sys.path.insert(0, VERIF)

TECH = ('contract-based deductive verification: AST->VC generation over sidecar contracts on the real functions, z3 (cvc5 on unknown), '
        'native replay of counter-models; labelled bounded stand-ins alongside')
CLAIMS = {
    'C01': ('proof', 'DESIGN.md 3, 4 C01', 'A-thread (lock/condition/queue contracts), assumed Env method contracts (conformance-checked, lock structure checked), '
            'A-task-readonly, A-update, A-unique-names, A-toposort, Owicki-Gries soundness, z3, the pyvc encoder; see evidence.assumptions',
            TECH + '; Owicki-Gries global invariant over the verified contracts discharged per atomic action'),
    'C02': ('proof', 'DESIGN.md 3, 4 C02', 'same as C01; safety reading (whenever execute_tasks returns); induction over topological rank trusted',
            TECH + '; Owicki-Gries invariant + schedule-independence lemma'),
    'C03': ('other', 'DESIGN.md 4 C03', 'safety core only: liveness (no lost wake-up, termination of the master loop) is not decided by any contract; '
            'A-thread; thread.start() is assumed not to fail', TECH + ' (exit-path / trace obligations); liveness left to a bounded native sweep with a hang watchdog'),
    'C04': ('proof', 'DESIGN.md 4 C04', 'A-clock, assumed Env method contracts, entries of Env abstracted by parametricity in merge_done_tasks, z3, the pyvc encoder',
            TECH),
    'C09': ('proof', 'DESIGN.md 4 C09', 'numpy basic slicing / squeeze semantics (A-numpy), the modelled contract of Dataset.__init__, z3, the pyvc encoder; see evidence.assumptions',
            TECH),
}
NA_REASON = 'check not built yet (see DESIGN.md section 8 build order)'


def main():
    props = [json.loads(l)['id'] for l in open(os.path.join(VERIF, 'properties.jsonl'))]
    extra = {}
    p = os.path.join(VERIF, 'tools', 'claims_extra.json')
    if os.path.exists(p):
        extra = json.load(open(p))
    claims = dict(CLAIMS)
    for k, v in extra.get('claims', {}).items():
        claims[k] = tuple(v)
    checks = []
    for pid in props:
        if pid not in claims:
            continue
        mod = importlib.import_module(f'contracts.{pid}')
        level, ref, note, tech = claims[pid]
        assert level == mod.LEVEL, (pid, level, mod.LEVEL)
        checks.append({'property_id': pid, 'quick_cmd': f'./bin/check {pid} --tier quick', 'thorough_cmd': f'./bin/check {pid} --tier thorough',
                       'evidence_file': f'evidence/{pid}.json', 'replay_cmd_template': f'./bin/check {pid} --replay {{path}}', 'engine': 'pyvc',
                       'level_claimed': {'category': level, 'text': mod.EXPLANATION, 'design_ref': ref}, 'level_note': note, 'technique': tech})
    na = [{'property_id': pid, 'reason': extra.get('not_applicable', {}).get(pid, NA_REASON)} for pid in props if pid not in claims]
    man = {'version': 1, 'setup_cmd': './bin/setup',
           'hooks': {'guard': 'VALJEAN_VERIF',
                     'enable': "no source hooks: the verified text is read from /repo's working tree on every run; replays use sys/threading.settrace",
                     'baseline_off_cmd': 'cd /repo && /venv/bin/python -m pytest -ra -q -p no:cacheprovider --timeout=900 --continue-on-collection-errors',
                     'source_commits': [], 'add_only': True},
           'engines': [{'name': 'pyvc', 'path': 'pyvc/', 'serves_properties': [c['property_id'] for c in checks],
                        'kind_free_text': 'AST -> verification-condition generator over the real functions in /repo with sidecar contracts, discharged by z3 (cvc5 for unknowns)'}],
           'checks': checks, 'not_applicable': na, 'notes': 'see DESIGN.md'}
    with open(os.path.join(VERIF, 'MANIFEST.json'), 'w') as f:
        json.dump(man, f, indent=1)
    import jsonschema
    jsonschema.validate(man, json.load(open('/root/.vp/MANIFEST.schema.json')))
    print('MANIFEST.json:', len(checks), 'checks,', len(na), 'not applicable')


main()
