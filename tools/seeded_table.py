#!/usr/bin/env python3
'''Merge seeded/ANNOTATIONS.json into seeded/*/meta.json (needs_to_manifest, caught_by) and print the markdown table for DESIGN.md.'''
import glob
import json
import os
import re

VERIF = os.path.dirname(os.path.dirname(os.path.abspath(__file__)))
ann = json.load(open(os.path.join(VERIF, 'seeded', 'ANNOTATIONS.json')))
rows = []
for d in sorted(glob.glob(os.path.join(VERIF, 'seeded', 'C*-*'))):
    key = os.path.basename(d)
    mp = os.path.join(d, 'meta.json')
    m = json.load(open(mp))
    if key in ann:
        m['needs_to_manifest'] = ann[key]
    caught = []
    for c in m.get('checks', []):
        log = os.path.join(d, f"check_{c['check']}.log")
        ded, bnd, und = [], [], []
        if os.path.exists(log):
            for ln in open(log):
                if ln.startswith('VIOLATION'):
                    f = ln.split('replays/')[-1].split('/')[-1].strip()
                    tail = f.endswith('no-failing-input-found')
                    f = f.replace(' no-failing-input-found', '')
                    f = re.sub(r'\.\d+\.json$|\.json$', '', f)
                    if f.startswith('bounded_'):
                        if f not in bnd:
                            bnd.append(f)
                    else:
                        q = f.split('__')
                        ded.append('::'.join(q[-3:]) if len(q) >= 3 else f)
                elif 'UNDECIDED' in ln:
                    und.append(ln.split('UNDECIDED')[1].strip().split('::', 1)[-1][:90])
        c['deductive_obligations_failed'] = ded
        c['bounded_units_failed'] = bnd
        c['undecided'] = und
        if c['exit'] == 1:
            caught.append(f"{c['check']}: " + '; '.join((['deductive ' + x for x in ded[:3]] + ['bounded ' + x for x in bnd[:2]])))
        else:
            caught.append(f"{c['check']}: not flagged (exit {c['exit']})")
    if key in ann or 'caught_by' not in m:
        m['caught_by'] = ' | '.join(caught)
    json.dump(m, open(mp, 'w'), indent=1)
    ded_any = any(c.get('deductive_obligations_failed') for c in m.get('checks', []) if c['check'] == m['property'])
    own = [c for c in m.get('checks', []) if c['check'] == m['property']]
    first = [c for c in (m.get('checks_first_run') or m.get('checks', [])) if c['check'] == m['property']]
    missed_first = bool(first and first[0]['exit'] != 1) or '(first missed' in m.get('needs_to_manifest', '')
    now = 'yes' if own and own[0]['exit'] == 1 else 'NO'
    rows.append((key, m.get('needs_to_manifest', '')[:160], ('missed at first, now ' + now) if missed_first else now,
                 'deductive + bounded' if ded_any and any(c.get('bounded_units_failed') for c in own) else ('deductive' if ded_any else 'bounded only'),
                 '; '.join(f"{c['check']}={'flagged' if c['exit'] == 1 else 'quiet'}" for c in m.get('checks', []) if c['check'] != m['property'])))
print('| change | what it needs to show | flagged by its check | by | other checks run |')
print('|---|---|---|---|---|')
for r in rows:
    print('| ' + ' | '.join(r) + ' |')
