#!/bin/bash
# tools/seedcheck.sh <property-id> <n> [extra property ids to also check...]
# Confirms a seeded change (/tmp/mut/out/<id>/patch<n>.diff + demo<n>.py): applies to a scratch worktree of /repo HEAD,
# demo fails with it and passes without, suite unchanged; then runs our check(s) against the patched tree.
# Keeps the confirmed change under /verif/seeded/<id>-<n>/ (patch.diff, demo.py, meta.json).
ID=$1; N=$2; shift 2; ALSO="$@"
SRC=/tmp/mut/out/$ID
OUT=/verif/seeded/$ID-$N
D=$(mktemp -d /var/tmp/seed.XXXXXX)
git -C /repo worktree add --detach -q "$D/r" HEAD >/dev/null 2>&1 || { echo "worktree failed"; exit 9; }
cleanup() { git -C /repo worktree remove --force "$D/r" >/dev/null 2>&1; rm -rf "$D"; }
trap cleanup EXIT
cd "$D/r"
PYTHONPATH="$D/r" timeout 120 /venv/bin/python "$SRC/demo$N.py" >"$D/demo_clean.log" 2>&1; DEMO_CLEAN=$?
if ! git apply "$SRC/patch$N.diff" 2>"$D/apply.log"; then
  if ! git apply -3 "$SRC/patch$N.diff" 2>>"$D/apply.log"; then echo "$ID-$N: patch does not apply to HEAD"; cat "$D/apply.log" | head -5; exit 8; fi
fi
git diff > "$D/patch.diff"
PYTHONPATH="$D/r" timeout 120 /venv/bin/python "$SRC/demo$N.py" >"$D/demo_patched.log" 2>&1; DEMO_PATCHED=$?
SUITE=$(/verif/bin/suite "$D/r" 2>&1 | grep -v WARNING | head -3 | tr '\n' ' ')
mkdir -p "$OUT" "$D/ev"
RES=""
for P in $ID $ALSO; do
  REPO="$D/r" PYVC_EVIDENCE_DIR="$D/ev" /verif/bin/check $P --tier quick > "$D/check_$P.log" 2>&1; RC=$?
  V=$(grep -c '^VIOLATION' "$D/check_$P.log")
  FIRST=$(grep '^VIOLATION' "$D/check_$P.log" | head -3 | sed 's/.*replays.//' | tr '\n' ';')
  RES="$RES {\"check\": \"$P\", \"exit\": $RC, \"violation_lines\": $V, \"first\": \"$FIRST\"},"
  cp "$D/check_$P.log" "$OUT/check_$P.log"
done
cp "$D/patch.diff" "$OUT/patch.diff"; cp "$SRC/demo$N.py" "$OUT/demo.py"
cat > "$OUT/meta.json" <<JSON
{"property": "$ID", "source": "independent sub-agent given only the property text (patch$N)",
 "demo_exit_on_unchanged_tree": $DEMO_CLEAN, "demo_exit_with_change": $DEMO_PATCHED,
 "suite_with_change": "$SUITE",
 "ran": "tools/seedcheck.sh $ID $N $ALSO (scratch worktree of /repo HEAD $(git -C /repo rev-parse --short HEAD))",
 "checks": [${RES%,}]}
JSON
echo "$ID-$N demo clean=$DEMO_CLEAN patched=$DEMO_PATCHED suite: $SUITE checks:$RES"
